/-
C14 — convex_hull() is the exact convex hull boundary, in clockwise order.

Model of the iterator (`St.hullIter`): start at the outer face's adjacent edge and follow `next`
(the link T0 extracts from `HullNextBackFn`) until back at the start.  The correspondence run
compares the implementation's `convex_hull()` output with `hullIter` of the dumped state element by
element (R3) and with the spec `HullAnswerOK` (R2); `HullConvex` / `NoVertexInsideEdge` /
`CountsOK.chs` are part of the state spec checked after every mutation.
Proved here for EVERY state with consistent links (no bound on size):
* `hullIter` lists pairwise different half-edges, all of them on the outer face, consecutive ones
  share a vertex (`to(e_i) = from(e_{i+1})`), the last one leads back to the first, and — given the
  counting clause of `OuterCycleOK` — every outer half-edge occurs: each exactly once;
* the generated `convex_hull_size` equals the number of outer half-edges (see C02);
* checker ⇔ spec.
`C14_partial`: convexity of the outer cycle produced by spade's algorithms is decided per run
(`HullConvex` on every dumped state), not proved.
-/
import Spade.Query
import Spade.Proofs.Orbit
import Spade.Generated.Leaf
import Spade.Examples
import Spade.Proofs.CircIterSound
namespace Spade

theorem C14_check_iff (s : St) (n : Nat) (f b : List Nat) :
    decide (s.HullAnswerOK n f b) = true ↔ s.HullAnswerOK n f b := decide_eq_true_iff

theorem C14_hullconvex_check_iff (s : St) : decide s.HullConvex = true ↔ s.HullConvex :=
  decide_eq_true_iff

/-- the iterator follows `next` forwards and `prev` backwards (regenerated from the source) -/
theorem C14_iterator_links : Generated.hullStep = .next ∧ Generated.hullStepBack = .prev := by
  decide

/-- the outer face's representative edge under the anchor invariant -/
theorem outer_anchor (s : St) (ha : s.AnchorsOK) (hpos : 0 < s.nE) (hF : 1 ≤ s.nF) :
    ∃ e0, s.fAdj.getD 0 none = some e0 ∧ e0 < s.nE ∧ s.fc e0 = 0 := by
  have h := ha.2.1 0 (by omega)
  cases hx : s.fAdj.getD 0 none with
  | none => simp only [hx] at h; omega
  | some e0 => simp only [hx] at h; exact ⟨e0, rfl, h.1, h.2⟩

/-- **The hull iterator yields each outer half-edge exactly once, as a closed chain.** -/
theorem C14_hullIter_spec (s : St) (hl : s.LinksOK) (ha : s.AnchorsOK) (ho : s.OuterCycleOK)
    (hpos : 0 < s.nE) :
    s.hullIter.Nodup ∧
    (∀ e ∈ s.hullIter, e < s.nE ∧ s.fc e = 0) ∧
    (∀ e, e < s.nE → s.fc e = 0 → e ∈ s.hullIter) ∧
    s.hullIter.length = s.nOuter ∧
    (∀ i (h : i + 1 < s.hullIter.length), s.org (s.hullIter[i + 1]) = s.dst (s.hullIter[i])) := by
  obtain ⟨e0, hf, he0, hfc0⟩ := outer_anchor s ha hpos hl.2.1
  have hfe : s.fe 0 = e0 := by simp [St.fe, hf]
  have hiter : s.hullIter = orbit s.nxt e0 s.nE e0 := by simp [St.hullIter, hf]
  let P : Nat → Prop := fun x => x < s.nE ∧ s.fc x = 0
  have hstep : ∀ x, P x → P (s.nxt x) := by
    intro x ⟨hx, hfx⟩
    have := hl.2.2.2.2 x hx
    exact ⟨this.2.1, by rw [this.2.2.2.2.2.2.2.1]; exact hfx⟩
  have hinv : ∀ x, P x → s.prv (s.nxt x) = x := by
    intro x ⟨hx, _⟩
    exact (hl.2.2.2.2 x hx).2.2.2.2.2.1
  have hP0 : P e0 := ⟨he0, hfc0⟩
  have hmem : ∀ e ∈ s.hullIter, e < s.nE ∧ s.fc e = 0 := by
    rw [hiter]; exact orbit_forall s.nxt e0 P hstep s.nE e0 hP0
  have hnd : s.hullIter.Nodup := by
    rw [hiter]; exact orbit_nodup s.nxt s.prv P hstep hinv e0 hP0 s.nE
  have hlen : s.hullIter.length = countLt s.nE (fun e => s.fc e == 0) := by
    have := (ho hpos).2
    rw [hfe] at this
    rw [hiter]; exact this
  refine ⟨hnd, hmem, ?_, hlen, ?_⟩
  · intro e he hfe0
    apply nodup_covers s.nE (fun e => s.fc e == 0) s.hullIter hnd _ hlen e he
    · simp [hfe0]
    · intro x hx; have := hmem x hx; exact ⟨this.1, by simp [this.2]⟩
  · intro i h
    have hc : s.hullIter[i + 1] = s.nxt (s.hullIter[i]) := by
      have := orbit_consecutive s.nxt e0 s.nE e0 i (by rw [← hiter]; exact h)
      simp only [hiter]; exact this
    rw [hc]
    have hi := hmem (s.hullIter[i]) (List.getElem_mem _)
    exact (hl.2.2.2.2 _ hi.1).2.2.2.2.2.2.2.2.1

/-- non-vacuity: the premises hold for a state dumped from the real implementation, and the model
iterator yields its five hull edges -/
example : exFive.LinksOK ∧ exFive.AnchorsOK ∧ exFive.OuterCycleOK ∧ 0 < exFive.nE ∧
    exFive.hullIter = [13, 11, 3, 1, 9] := by decide


/-! ### Code level (T0): the `CircularIterator` state machine behind `convex_hull()` / `out_edges()` -/
section CodeCircular
open Spade.Generated

/-- the hull model compared with the implementation after every step (`St.hullIter`, an `orbit` of
    `next`) is what draining the translated `CircularIterator` from the front produces -/
theorem C14_code_iterator_is_hullIter (s : St) :
    s.hullIter = match s.fAdj.getD 0 none with
      | none => []
      | some e0 => CI.drain s.nxt (CI.new e0) s.nE := by
  unfold St.hullIter
  cases s.fAdj.getD 0 none with
  | none => rfl
  | some e0 => simp only [CI.new, CI_drain_orbit]

/-- **Double-ended contract.** Over a cycle of `n` distinct elements on which `back` undoes `step`,
    any interleaving of `next()` and `next_back()` calls hands out `cyc 0, cyc 1, …` at the front and
    `cyc (n-1), cyc (n-2), …` at the back, and answers `None` as soon as the two ends met. -/
theorem C14_code_double_ended {step back cyc n} (h : IsCycle step back cyc n) (ops : List Bool) :
    CI.run step back (CI.new (cyc 0)) ops = ciSpec cyc n 0 0 ops :=
  CI_run_spec h ops 0 0 _ (CI_new_inv h)

/-- forwards only: the cycle in order; backwards only (`.rev()`): the cycle in reverse order -/
theorem C14_code_forward {step back cyc n} (h : IsCycle step back cyc n) (k : Nat) :
    CI.run step back (CI.new (cyc 0)) (List.replicate k true) =
      (List.range' 0 k).map (fun i => if i < n then some (cyc i) else none) := by
  rw [C14_code_double_ended h, ciSpec_front]

theorem C14_code_backward {step back cyc n} (h : IsCycle step back cyc n) (k : Nat) :
    CI.run step back (CI.new (cyc 0)) (List.replicate k false) =
      (List.range' 0 k).map (fun i => if i < n then some (cyc (n - i - 1)) else none) := by
  rw [C14_code_double_ended h, ciSpec_back]

/-- **The hull iterator is double-ended correct on every valid state**: under the link, anchor and
    outer-cycle invariants (checked on every dumped state) the outer boundary is a cycle in the sense
    of `IsCycle` for `next` / `prev`, so any interleaving of `next()` / `next_back()` on
    `convex_hull()` hands out each hull edge exactly once — `i`-th from the front is the `i`-fold
    `next` of the anchor, `i`-th from the back the `(n-1-i)`-fold. -/
theorem C14_code_hull_double_ended (s : St) (hl : s.LinksOK) (ha : s.AnchorsOK) (ho : s.OuterCycleOK)
    (hpos : 0 < s.nE) (ops : List Bool) :
    ∃ e0, s.fAdj.getD 0 none = some e0 ∧
      CI.run s.nxt s.prv (CI.new e0) ops = ciSpec (fun i => iter s.nxt i e0) s.hullIter.length 0 0 ops := by
  obtain ⟨e0, hf, he0, hfc0⟩ := outer_anchor s ha hpos hl.2.1
  have hfe : s.fe 0 = e0 := by simp [St.fe, hf]
  have hiter : s.hullIter = orbit s.nxt e0 s.nE e0 := by simp [St.hullIter, hf]
  let P : Nat → Prop := fun x => x < s.nE ∧ s.fc x = 0
  have hstep : ∀ x, P x → P (s.nxt x) := by
    intro x ⟨hx, hfx⟩
    have := hl.2.2.2.2 x hx
    exact ⟨this.2.1, by rw [this.2.2.2.2.2.2.2.1]; exact hfx⟩
  have hinv : ∀ x, P x → s.prv (s.nxt x) = x := by
    intro x ⟨hx, _⟩
    exact (hl.2.2.2.2 x hx).2.2.2.2.2.1
  have hclosed : orbitClosed s.nxt e0 (orbit s.nxt e0 s.nE e0) := by
    have := (ho hpos).1
    rw [hfe] at this; exact this
  have hc := orbit_isCycle s.nxt s.prv P hstep hinv e0 ⟨he0, hfc0⟩ s.nE hclosed
  refine ⟨e0, hf, ?_⟩
  rw [hiter]
  exact C14_code_double_ended hc ops

example : CI.run exFive.nxt exFive.prv (CI.new 13) [true, false, false, true, true, true] =
    [some 13, some 9, some 1, some 11, some 3, none] := by decide

/-- the two model iterators compared with the implementation on every `hull` query
    (`convex_hull()` and `convex_hull().rev()`), expressed by the hull model `St.hullIter`:
    the forward drain *is* `hullIter`; on every valid state the backward drain is its reverse -/
theorem C14_code_hull_front (s : St) : s.hullIterFront = s.hullIter := by
  unfold St.hullIterFront St.hullCI St.hullIter
  cases s.fAdj.getD 0 none with
  | none => exact CI_drain_done _ _ rfl _
  | some e0 => simp only [CI.new, CI_drain_orbit]

theorem C14_code_hull_back (s : St) (hl : s.LinksOK) (ha : s.AnchorsOK) (ho : s.OuterCycleOK)
    (hpos : 0 < s.nE) : s.hullIterBack = s.hullIter.reverse := by
  obtain ⟨e0, hf, he0, hfc0⟩ := outer_anchor s ha hpos hl.2.1
  have hfe : s.fe 0 = e0 := by simp [St.fe, hf]
  have hiter : s.hullIter = orbit s.nxt e0 s.nE e0 := by simp [St.hullIter, hf]
  let P : Nat → Prop := fun x => x < s.nE ∧ s.fc x = 0
  have hstep : ∀ x, P x → P (s.nxt x) := by
    intro x ⟨hx, hfx⟩
    have := hl.2.2.2.2 x hx
    exact ⟨this.2.1, by rw [this.2.2.2.2.2.2.2.1]; exact hfx⟩
  have hinv : ∀ x, P x → s.prv (s.nxt x) = x := by
    intro x ⟨hx, _⟩
    exact (hl.2.2.2.2 x hx).2.2.2.2.2.1
  have hclosed : orbitClosed s.nxt e0 (orbit s.nxt e0 s.nE e0) := by
    have := (ho hpos).1
    rw [hfe] at this; exact this
  have hc := orbit_isCycle s.nxt s.prv P hstep hinv e0 ⟨he0, hfc0⟩ s.nE hclosed
  have hb := CI_drainBack_reverse hc s.nE (orbit_length_le _ _ _ _)
  unfold St.hullIterBack St.hullCI
  simp only [hf]
  rw [hiter, orbit_eq_map_iter s.nxt e0 s.nE]
  exact hb

example : exFive.hullIterBack = [9, 1, 3, 11, 13] ∧ exFive.hullIterFront = [13, 11, 3, 1, 9] := by decide

/-- consumed from both ends in turn (the harness' third drain, pattern `mixPattern`): on every valid
    state a permutation of the hull model's list — each hull edge exactly once -/
theorem C14_code_hull_mixed (s : St) (hl : s.LinksOK) (ha : s.AnchorsOK) (ho : s.OuterCycleOK)
    (hpos : 0 < s.nE) : s.hullIterMixed.Perm s.hullIter := by
  obtain ⟨e0, hf, he0, hfc0⟩ := outer_anchor s ha hpos hl.2.1
  have hfe : s.fe 0 = e0 := by simp [St.fe, hf]
  have hiter : s.hullIter = orbit s.nxt e0 s.nE e0 := by simp [St.hullIter, hf]
  let P : Nat → Prop := fun x => x < s.nE ∧ s.fc x = 0
  have hstep : ∀ x, P x → P (s.nxt x) := by
    intro x ⟨hx, hfx⟩
    have := hl.2.2.2.2 x hx
    exact ⟨this.2.1, by rw [this.2.2.2.2.2.2.2.1]; exact hfx⟩
  have hinv : ∀ x, P x → s.prv (s.nxt x) = x := by
    intro x ⟨hx, _⟩
    exact (hl.2.2.2.2 x hx).2.2.2.2.2.1
  have hclosed : orbitClosed s.nxt e0 (orbit s.nxt e0 s.nE e0) := by
    have := (ho hpos).1
    rw [hfe] at this; exact this
  have hc := orbit_isCycle s.nxt s.prv P hstep hinv e0 ⟨he0, hfc0⟩ s.nE hclosed
  have hle := orbit_length_le s.nxt e0 s.nE e0
  have hm := CI_drainMixed_spec hc (s.nE + 1) 0 0 _ 0 (CI_new_inv hc)
  have hp := mixSpec_perm (fun i => iter s.nxt i e0) (orbit s.nxt e0 s.nE e0).length (s.nE + 1) 0 0 0
    (by omega) (by omega)
  unfold St.hullIterMixed St.hullCI
  simp only [hf]
  rw [hiter, orbit_eq_map_iter s.nxt e0 s.nE, List.range_eq_range']
  have e : CI.new (iter s.nxt 0 e0) = CI.new e0 := rfl
  rw [e] at hm
  rw [hm]
  simpa using hp

example : exFive.hullIterMixed = [13, 9, 1, 11, 3] := by decide

/-- an empty iterator (`new_empty`, used when there is no hull / no out edge) answers `None` at once -/
theorem C14_code_empty (step back : Nat → Nat) (e : Nat) :
    (CI.newEmpty e).next step = (CI.newEmpty e, none) ∧ (CI.newEmpty e).nextBack back = (CI.newEmpty e, none) := by
  simp [CI.newEmpty, CI.next, CI.nextBack]

/-- `out_edges()` turns counter-clockwise forwards and clockwise backwards (regenerated from the source) -/
theorem C14_code_out_edges_links : outStep = .ccw ∧ outStepBack = .cw := by decide

/-- non-vacuity: the 3-cycle 5 → 7 → 9 → 5, front, back, front, then exhausted -/
example : CI.run (fun x => if x = 9 then 5 else x + 2) (fun x => if x = 5 then 9 else x - 2) (CI.new 5)
    [true, false, true, true, false] = [some 5, some 9, some 7, none, none] := by decide
example : IsCycle (fun x => if x = 9 then 5 else x + 2) (fun x => if x = 5 then 9 else x - 2)
    (fun i => 5 + 2 * (i % 3)) 3 := by
  refine ⟨by omega, ?_, ?_, rfl, ?_⟩
  · intro i; have : i % 3 < 3 := Nat.mod_lt _ (by omega)
    by_cases h : i % 3 = 2
    · have : (i + 1) % 3 = 0 := by omega
      simp only [h, this]; rfl
    · have h2 : (i + 1) % 3 = i % 3 + 1 := by omega
      have : ¬ (5 + 2 * (i % 3) = 9) := by omega
      simp only [this, if_false, h2]; omega
  · intro i; have : i % 3 < 3 := Nat.mod_lt _ (by omega)
    by_cases h : i % 3 = 2
    · have h2 : (i + 1) % 3 = 0 := by omega
      simp only [h2, h]; rfl
    · have h2 : (i + 1) % 3 = i % 3 + 1 := by omega
      have : ¬ (5 + 2 * (i % 3 + 1) = 5) := by omega
      simp only [h2, this, if_false]; omega
  · intro i j hi hj; simp only [Nat.mod_eq_of_lt hi, Nat.mod_eq_of_lt hj]; omega
end CodeCircular
end Spade
