/-
C06 — Geometric decisions are exact for every representable input.

All theorems below are about `Spade.Generated.*`, the Lean definitions that translator T0
regenerates from `math.rs` / `line_side_info.rs` on every run (argument order, comparison
operators, negation, `abs() == 0.0`), under the robust contract (`robustOrient2d`,
`robustIncircle` are the exact determinants whose sign the `robust` crate returns — modelled, not
verified; validated on every run by the `pred` correspondence on adversarial inputs).
Coordinates are exact integers after the common scaling by 2^1074 (`orient_scale_pos`,
`incircle_scale_pos`: signs do not depend on the scaling), for binary64 and for widened binary32
(`C06_widen_exact`: widening does not change the value).
-/
import Spade.Proofs.GeomLemmas
import Spade.Generated.Leaf
import Mathlib.Tactic.NormNum
set_option exponentiation.threshold 4096
namespace Spade
open Spade.Generated

/-- `side_query p1 p2 q` carries the sign of the exact orientation determinant. -/
theorem C06_side_query_eq (p1 p2 q : Pt) : side_query p1 p2 q = orient p1 p2 q := by
  unfold side_query; exact robustOrient2d_eq p1 p2 q

theorem C06_left_iff (p1 p2 q : Pt) :
    is_on_left_side (side_query p1 p2 q) = decide (0 < orient p1 p2 q) := by
  rw [C06_side_query_eq]; simp [is_on_left_side, FL.gt, FL.lt, FL.zero]

theorem C06_right_iff (p1 p2 q : Pt) :
    is_on_right_side (side_query p1 p2 q) = decide (orient p1 p2 q < 0) := by
  rw [C06_side_query_eq]; simp [is_on_right_side, FL.lt, FL.zero]

/-- a point is reported on the line only if it is exactly collinear -/
theorem C06_on_line_iff (p1 p2 q : Pt) :
    is_on_line (side_query p1 p2 q) = decide (orient p1 p2 q = 0) := by
  rw [C06_side_query_eq]
  simp only [is_on_line, FL.eq, FL.abs, FL.zero]
  by_cases h : orient p1 p2 q = 0
  · simp [h]
  · simp [h]

theorem C06_left_or_on_iff (p1 p2 q : Pt) :
    is_on_left_side_or_on_line (side_query p1 p2 q) = decide (0 ≤ orient p1 p2 q) := by
  rw [C06_side_query_eq]; simp [is_on_left_side_or_on_line, FL.ge, FL.le, FL.zero]

theorem C06_right_or_on_iff (p1 p2 q : Pt) :
    is_on_right_side_or_on_line (side_query p1 p2 q) = decide (orient p1 p2 q ≤ 0) := by
  rw [C06_side_query_eq]; simp [is_on_right_side_or_on_line, FL.le, FL.zero]

/-- `reversed` is the side query of the reversed edge -/
theorem C06_reversed (p1 p2 q : Pt) : reversed (side_query p1 p2 q) = side_query p2 p1 q := by
  rw [C06_side_query_eq, C06_side_query_eq]
  simp only [reversed, FL.neg]
  exact (orient_rev p1 p2 q).symm

theorem C06_is_ordered_ccw (p1 p2 q : Pt) : is_ordered_ccw p1 p2 q = decide (0 ≤ orient p1 p2 q) := by
  unfold is_ordered_ccw; exact C06_left_or_on_iff p1 p2 q

/-- equality of two `LineSideInfo`s: both on the line, or both strictly on the same side -/
theorem C06_lineSideEq (a b : Int) :
    lineSideEq a b = decide ((a = 0 ∧ b = 0) ∨ (0 < a ∧ 0 < b) ∨ (a < 0 ∧ b < 0)) := by
  simp only [lineSideEq, is_on_line, is_on_right_side, FL.eq, FL.abs, FL.zero, FL.lt]
  by_cases ha : a = 0
  · by_cases hb : b = 0
    · simp [ha, hb]
    · simp [ha, hb]
  · by_cases hb : b = 0
    · simp [ha, hb]
    · by_cases han : a < 0 <;> by_cases hbn : b < 0 <;> simp [ha, hb, han, hbn] <;> omega

/-- the in-circle wrapper decides `incircle > 0` of its arguments (any orientation) -/
theorem C06_contained_spec (v1 v2 v3 p : Pt) :
    contained_in_circumference v1 v2 v3 p = decide (0 < incircle v1 v2 v3 p) := by
  unfold contained_in_circumference
  have h : robustIncircle v3 v2 v1 p = - incircle v1 v2 v3 p := by
    unfold robustIncircle incircle; ring
  simp only [FL.lt, h]
  by_cases hp : 0 < incircle v1 v2 v3 p
  · simp [hp]
  · simp [hp]

/-- **Four points in convex position**: for the quadrilateral `a d b c` with diagonal `a b`
(faces `a b c` and `b a d`, both counter-clockwise) the flip rule keeps `a b` iff `d` is not
strictly inside the circumcircle of `a b c`; when it flips, the new diagonal `d c` is strictly
legal (the Delaunay one), and when the four points are exactly cocircular neither diagonal is
flipped. -/
theorem C06_four_point_diagonal (a b c d : Pt) :
    (contained_in_circumference a b c d = true → contained_in_circumference d c a b = false) ∧
    (incircle a b c d = 0 → contained_in_circumference a b c d = false ∧
                            contained_in_circumference d c a b = false) := by
  rw [C06_contained_spec, C06_contained_spec]
  have h : incircle d c a b = - incircle a b c d := by unfold incircle; ring
  rw [h]
  constructor
  · intro h1; simp at h1 ⊢; omega
  · intro h0; simp [h0]

/-- `intersects_edge_non_collinear`: both pairs of end points are on different sides (or exactly
one of a pair on the line) -/
theorem C06_intersects_spec (a b c d : Pt) :
    intersects_edge_non_collinear a b c d =
      (!(lineSideEq (orient a b c) (orient a b d)) && !(lineSideEq (orient c d a) (orient c d b))) := by
  unfold intersects_edge_non_collinear
  simp only [C06_side_query_eq]

/-! ### binary32 → binary64 widening is exact -/

theorem C06_widen_exact_normal (f : F32) (h1 : 0 < f.exp) (h2 : f.exp < 255) :
    (f.widen).decode = f.decode := by
  have he : f.exp ≠ 255 := by omega
  have h0 : f.exp ≠ 0 := by omega
  have hw : f.widen = { sign := f.sign, exp := f.exp + 896, man := f.man * 2^29 } := by
    unfold F32.widen; simp [he, h0]
  rw [hw]
  unfold F64.decode F32.decode F64.mag F32.mag
  have e1 : f.exp + 896 ≠ 2047 := by omega
  have e2 : f.exp + 896 ≠ 0 := by omega
  simp only [e1, e2, he, h0, if_false]
  have key : (2 ^ 52 + f.man * 2 ^ 29) * 2 ^ (f.exp + 896 - 1) = (2 ^ 23 + f.man) * 2 ^ (f.exp + 924) := by
    have e3 : f.exp + 896 - 1 = f.exp + 895 := by omega
    rw [e3]
    have e4 : (2:Nat) ^ (f.exp + 924) = 2 ^ 29 * 2 ^ (f.exp + 895) := by
      have e6 : f.exp + 924 = 29 + (f.exp + 895) := by omega
      rw [e6, Nat.pow_add]
    rw [e4]
    generalize (2:Nat) ^ (f.exp + 895) = X
    have e5 : (2:Nat) ^ 52 = 2 ^ 23 * 2 ^ 29 := by norm_num
    rw [e5]
    generalize (2:Nat) ^ 23 = A
    generalize (2:Nat) ^ 29 = B
    ring
  rw [key]

theorem C06_widen_exact_special (f : F32) (h : f.exp = 255) : (f.widen).decode = f.decode := by
  unfold F32.widen F64.decode F32.decode
  simp only [h, if_true]
  by_cases hm : f.man = 0
  · simp [hm]
  · simp [hm]

theorem C06_widen_exact_zero (f : F32) (h : f.exp = 0) (hm : f.man = 0) : (f.widen).decode = f.decode := by
  unfold F32.widen F64.decode F32.decode F64.mag F32.mag
  simp [h, hm]

end Spade
