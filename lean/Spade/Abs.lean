/-
Layer A — the abstract machine: what a user may rely on.

State = vertex array `(position, data)` in handle order + the set of current constraint pieces
(undirected segments between vertices).  The triangulation itself is not part of A; it is
characterised by the predicates of `Spade.Spec`.
-/
import Spade.Geom
namespace Spade

def ptLe (a b : Pt) : Bool := a.x < b.x || (a.x == b.x && a.y ≤ b.y)

/-- undirected segment in normal form -/
def normSeg (a b : Pt) : Pt × Pt := if ptLe a b then (a, b) else (b, a)

structure AState where
  verts : Array (Pt × Nat)
  cons : List (Pt × Pt)
deriving Repr, Inhabited

namespace AState

def empty : AState := ⟨#[], []⟩

def posOf (a : AState) (i : Nat) : Pt := (a.verts.getD i (⟨0, 0⟩, 0)).1
def dataOf (a : AState) (i : Nat) : Nat := (a.verts.getD i (⟨0, 0⟩, 0)).2

def find (a : AState) (p : Pt) : Option Nat := a.verts.findIdx? (fun v => v.1 == p)

/-- splitting the pieces that contain `p` in their interior -/
def splitAt (cons : List (Pt × Pt)) (p : Pt) : List (Pt × Pt) :=
  cons.flatMap fun c => if OnOpenSeg c.1 c.2 p then [normSeg c.1 p, normSeg p c.2] else [c]

/-- `insert`: overwrite the data of the vertex at `p`, or push a new vertex (map semantics, C05);
a new vertex on a constraint piece replaces it by its two halves (C04). Returns the handle. -/
def insert (a : AState) (p : Pt) (d : Nat) : AState × Nat :=
  match a.find p with
  | some i => ({ a with verts := a.verts.setIfInBounds i (p, d) }, i)
  | none => ({ verts := a.verts.push (p, d), cons := splitAt a.cons p }, a.verts.size)

/-- `remove i`: returns the stored data, the last vertex moves into slot `i`, constraint pieces
ending in the removed vertex disappear (C05, C11). -/
def remove (a : AState) (i : Nat) : AState × Nat :=
  let p := a.posOf i
  let d := a.dataOf i
  let last := a.verts.back?.getD (⟨0, 0⟩, 0)
  let vs := (a.verts.setIfInBounds i last).pop
  ({ verts := vs, cons := a.cons.filter fun c => !(c.1 == p || c.2 == p) }, d)

def clear (_ : AState) : AState := empty

/-- would the open segment cross an existing constraint piece in an interior point? (C12) -/
def canAddPts (a : AState) (p q : Pt) : Bool :=
  a.cons.all fun c => !(decide (ProperCross p q c.1 c.2))

def canAdd (a : AState) (i j : Nat) : Bool := a.canAddPts (a.posOf i) (a.posOf j)

def insertSorted (key : Pt → Int) (p : Pt) : List Pt → List Pt
  | [] => [p]
  | q :: qs => if key p ≤ key q then p :: q :: qs else q :: insertSorted key p qs

/-- positions of the vertices on the closed segment `p q`, ordered from `p` to `q` -/
def onSegSorted (a : AState) (p q : Pt) : List Pt :=
  (a.verts.toList.filterMap fun v => if OnClosedSeg p q v.1 then some v.1 else none).foldl
    (fun acc v => insertSorted (dotFrom p q) v acc) []

def pairs : List Pt → List (Pt × Pt)
  | a :: b :: rest => normSeg a b :: pairs (b :: rest)
  | _ => []

/-- the pieces of segment `p q` between consecutive vertices lying on it -/
def piecesOf (a : AState) (p q : Pt) : List (Pt × Pt) :=
  if p == q then [] else pairs (a.onSegSorted p q)

/-- `add_constraint i j` (only meaningful when `canAdd`); returns whether a new piece appeared -/
def addConstraint (a : AState) (i j : Nat) : AState × Bool :=
  let ps := a.piecesOf (a.posOf i) (a.posOf j)
  let new := ps.filter fun c => !(a.cons.contains c)
  ({ a with cons := a.cons ++ new.eraseDups }, !new.isEmpty)

def removePiece (a : AState) (p q : Pt) : AState × Bool :=
  let c := normSeg p q
  if a.cons.contains c then ({ a with cons := a.cons.filter (· != c) }, true) else (a, false)

end AState
end Spade
