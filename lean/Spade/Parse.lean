/-
Protocol parsing: tokens, coordinates (bit patterns → exact scaled integers), state dumps.
-/
import Spade.Float
import Spade.State
namespace Spade

def hexDigit (c : Char) : Option Nat :=
  if '0' ≤ c ∧ c ≤ '9' then some (c.toNat - '0'.toNat)
  else if 'a' ≤ c ∧ c ≤ 'f' then some (c.toNat - 'a'.toNat + 10)
  else if 'A' ≤ c ∧ c ≤ 'F' then some (c.toNat - 'A'.toNat + 10)
  else none

def parseHex (cs : List Char) : Option Nat :=
  if cs.isEmpty then none else
  cs.foldl (fun acc c => match acc, hexDigit c with
    | some a, some d => some (a * 16 + d)
    | _, _ => none) (some 0)

/-- raw coordinate token: 'd' + 16 hex digits (binary64) or 's' + 8 hex digits (binary32) -/
inductive RawCoord where
  | d (f : F64)
  | s (f : F32)
deriving Repr, Inhabited, DecidableEq

def RawCoord.decode : RawCoord → Coord
  | .d f => f.decode
  | .s f => f.decode

def parseRaw (t : String) : Option RawCoord :=
  match t.toList with
  | 'd' :: rest => if rest.length = 16 then (parseHex rest).map (fun b => .d (F64.ofBits b)) else none
  | 's' :: rest => if rest.length = 8 then (parseHex rest).map (fun b => .s (F32.ofBits b)) else none
  | _ => none

def parseCoord (t : String) : Option Coord := (parseRaw t).map RawCoord.decode

/-- finite coordinate pair → point -/
def mkPt? (x y : Coord) : Option Pt :=
  match x, y with
  | .fin a, .fin b => some ⟨a, b⟩
  | _, _ => none

def parsePt (tx ty : String) : Option Pt := do
  let x ← parseCoord tx
  let y ← parseCoord ty
  mkPt? x y

def parseInt (t : String) : Option Int := t.toInt?
def parseNat (t : String) : Option Nat := t.toNat?

def optIdx (t : String) : Option (Option Nat) :=
  match t.toInt? with
  | some i => if i < 0 then some none else some (some i.toNat)
  | none => none

def tokens (line : String) : Array String :=
  ((line.trimAscii.toString.splitOn " ").filter (· ≠ "")).toArray

structure RawDump where
  n : Array String := #[]
  v : Array String := #[]
  e : Array String := #[]
  c : Array String := #[]
deriving Inhabited

/-- builds the state from the N V E C F lines (each given without its leading tag) -/
def buildState (rd : RawDump) (f : Array String) : Option St := do
  let n := rd.n
  if n.size ≠ 8 then none
  let numcI ← parseInt n[7]!
  let counts : Counts := {
    nv := ← parseNat n[0]!, nif := ← parseNat n[1]!, naf := ← parseNat n[2]!,
    nue := ← parseNat n[3]!, nde := ← parseNat n[4]!, chs := ← parseNat n[5]!,
    avol := n[6]! == "1", numc := if numcI < 0 then none else some numcI.toNat }
  if rd.v.size % 4 ≠ 0 then none
  let nv := rd.v.size / 4
  let mut pos : Array Pt := Array.mkEmpty nv
  let mut data : Array Nat := Array.mkEmpty nv
  let mut vOut : Array (Option Nat) := Array.mkEmpty nv
  for i in [0:nv] do
    pos := pos.push (← parsePt rd.v[4*i]! rd.v[4*i+1]!)
    data := data.push (← parseNat rd.v[4*i+2]!)
    vOut := vOut.push (← optIdx rd.v[4*i+3]!)
  if rd.e.size % 5 ≠ 0 then none
  let ne := rd.e.size / 5
  let mut he : Array HE := Array.mkEmpty ne
  for i in [0:ne] do
    he := he.push {
      origin := ← parseNat rd.e[5*i]!, next := ← parseNat rd.e[5*i+1]!,
      prev := ← parseNat rd.e[5*i+2]!, face := ← parseNat rd.e[5*i+3]!,
      rev := ← parseNat rd.e[5*i+4]! }
  let ctok := rd.c.getD 0 "-"
  let isCdt := ctok ≠ "-"
  let flag : Array Bool :=
    if ctok == "-" || ctok == "." then #[] else (ctok.toList.map (· == '1')).toArray
  let mut fAdj : Array (Option Nat) := Array.mkEmpty f.size
  for t in f do
    fAdj := fAdj.push (← optIdx t)
  return { pos, data, vOut, he, flag, fAdj, isCdt, counts }

def emptyState (isCdt : Bool) : St :=
  { pos := #[], data := #[], vOut := #[], he := #[], flag := #[], fAdj := #[none], isCdt,
    counts := { nv := 0, nif := 0, naf := 1, nue := 0, nde := 0, chs := 0, avol := true,
                numc := if isCdt then some 0 else none } }

end Spade
