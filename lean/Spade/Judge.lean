/-
The judge: replays one history through the abstract machine A, compares the implementation's
results (R1) and evaluates the decidable specs of `Spade.Spec` / `Spade.Query` on the
implementation's dumped states (R2).
-/
import Spade.Parse
import Spade.Abs
import Spade.Query
import Spade.Algo.Locate
import Spade.Algo.CircIter
namespace Spade

structure Fail where
  props : String
  clause : String
  detail : String
deriving Repr, Inhabited

structure HCtx where
  hist : Nat := 0
  scalar : String := "f64"
  kind : String := "dt"
  hint : String := "last"
  mode : String := ""
  fam : String := ""
  step : Nat := 0
  abs : AState := AState.empty
  cur : St := emptyState false
  c03Exempt : Bool := false
  lastLoc : Option (Pt × String) := none
  /-- step and answer of the last `nn` operation (the next hint of a `LastUsedVertexHintGenerator`) -/
  lastNN : Option (Nat × Nat) := none
  ended : Bool := false
  /-- a dumped state already violated a structural / Delaunay spec: everything later in this
  history is a consequence and is not judged (the violation itself has been reported) -/
  tainted : Bool := false
  /-- the history contains vertices whose positions were computed in floating point by the library
  (Steiner points of `refine`, split points of `add_constraint_and_split`): such points lie on
  their segment only up to rounding, so hull convexity is judged with a rounding slack from then on -/
  floatVerts : Bool := false
deriving Inhabited

def stEq (a b : St) : Bool :=
  a.pos == b.pos && a.data == b.data && a.vOut == b.vOut && a.he == b.he && a.flag == b.flag &&
  a.fAdj == b.fAdj && a.counts == b.counts

/-- exact squared distances only on integer-grid families -/
def exactFam (fam : String) : Bool :=
  fam.startsWith "grid" || fam == "line" || fam == "circle" || fam == "offset" || fam == "tiny"

def vertsMatch (s : St) (a : AState) : Bool :=
  s.pos.size == a.verts.size &&
  (List.range s.pos.size).all fun i => s.P i == a.posOf i && s.data.getD i 0 == a.dataOf i

def flaggedSegs (s : St) : List (Pt × Pt) :=
  (List.range (s.nE / 2)).filterMap fun u =>
    if s.flag.getD u false then some (normSeg (s.A (2 * u)) (s.B (2 * u))) else none

def sameSet (l m : List (Pt × Pt)) : Bool :=
  l.all (m.contains ·) && m.all (l.contains ·)

def consMatch (s : St) (a : AState) : Bool :=
  let fs := flaggedSegs s
  sameSet fs a.cons && fs.length == a.cons.eraseDups.length

def chk (b : Bool) (props clause : String) (detail : Unit → String) : List Fail :=
  if b then [] else [⟨props, clause, detail ()⟩]

/-- structural + Delaunay specs on a dumped state; `opProps` adds the property of the operation
that produced the state (e.g. C10 after a bulk load, C11 after a removal) -/
def checkState (h : HCtx) (s : St) (opProps : String) : List Fail :=
  let p := fun (base : String) => if opProps == "" then base else base ++ "," ++ opProps
  let wf := decide s.LinksOK
  let l1 := chk wf (p "C02") "LinksOK" (fun _ => "")
  if !wf then l1 else
  let anch := decide s.AnchorsOK
  let l2 := chk anch (p "C02,C14") "AnchorsOK" (fun _ => "")
  if !anch then l1 ++ l2 else
  l2 ++
  chk (decide s.OuterCycleOK) (p "C02,C14") "OuterCycleOK" (fun _ => "") ++
  chk (decide s.StarsOK) (p "C02") "StarsOK" (fun _ => "") ++
  chk (decide s.NoDupEdges) (p "C02") "NoDupEdges" (fun _ => "") ++
  -- (a plain Delaunay triangulation with a clockwise face or a site inside a circumcircle has no
  -- Voronoi dual: these two clauses also count for C18 there)
  chk (decide s.CcwFaces) (p (if s.isCdt then "C02" else "C02,C18")) "CcwFaces" (fun _ => "") ++
  -- hypotheses of the locate soundness theorem (C09): checked on every implementation state
  chk (decide s.CcwAllEdges) (p "C02,C09") "CcwAllEdges" (fun _ => "") ++
  chk (decide s.FaceTriples) (p "C02,C09") "FaceTriples" (fun _ => "") ++
  chk (decide s.DistinctPositions) (p "C05") "DistinctPositions" (fun _ => "") ++
  chk (decide s.Euler) (p "C02") "Euler" (fun _ => "") ++
  chk (decide s.CountsOK) (p "C02,C14") "CountsOK" (fun _ => s!"{repr s.counts}") ++
  (if decide s.AllCollinear then
    chk (decide s.ChainOK) (p "C02,C14") "ChainOK" (fun _ => "")
   else
    chk (decide (1 < s.nF)) (p "C02") "TwoDimensional" (fun _ => "not collinear but no inner face") ++
    (if h.floatVerts then
      let ext : Int := s.pos.foldl (fun acc q => max acc (max (q.x.natAbs : Int) (q.y.natAbs : Int))) 0
      let slack := ext * ext / 2 ^ (if h.scalar == "f32" then 16 else 40)
      chk ((List.range s.nE).all fun e => s.fc e != 0 ||
            (List.range s.nV).all fun v => decide (orient (s.A e) (s.B e) (s.P v) ≤ slack))
        (p "C02,C14") "HullConvexUpToRounding" (fun _ => "")
     else chk (decide s.HullConvex) (p "C02,C14") "HullConvex" (fun _ => "")) ++
    chk (decide s.NoVertexInsideEdge) (p "C02,C14") "NoVertexInsideEdge" (fun _ => "") ++
    chk (decide s.facesDisjoint) (p "C02") "FacesDisjoint" (fun _ => "") ++
    chk (decide s.AreaOK) (p "C02") "AreaOK" (fun _ => s!"{s.sumFaces} vs {- s.sumHull}")) ++
  chk (decide s.FlagsShapeOK) (p "C04") "FlagsShapeOK" (fun _ => s!"numc={repr s.counts.numc} flagged={s.flagCount}") ++
  (if s.isCdt then
    chk (decide s.FlagsNoCross) (p "C04") "FlagsNoCross" (fun _ => "") ++
    (if h.c03Exempt then [] else
      chk (decide s.LocallyDelaunayFree) (p "C03") "LocallyDelaunayFree" (fun _ => "") ++
      (if s.flagCount == 0 then
        chk (decide s.GloballyDelaunay) (p "C03") "GloballyDelaunayNoConstraints" (fun _ => "") else []))
   else
    chk (decide s.GloballyDelaunay) (p "C01,C18") "GloballyDelaunay" (fun _ => ""))

def checkAbs (s : St) (a : AState) (opProps : String) : List Fail :=
  let p := fun (base : String) => if opProps == "" then base else base ++ "," ++ opProps
  chk (vertsMatch s a) (p "C05") "VertsMatch" (fun _ =>
    s!"impl n={s.pos.size} abs n={a.verts.size}") ++
  (if s.isCdt then chk (consMatch s a) (p "C04") "ConsMatch" (fun _ =>
    s!"impl={(flaggedSegs s).length} abs={a.cons.length}") else [])

def parseLoc (r : Array String) : Option LocRes :=
  match r.getD 0 "" with
  | "onvertex" => (parseNat (r.getD 1 "")).map .onVertex
  | "onedge" => (parseNat (r.getD 1 "")).map .onEdge
  | "onface" => (parseNat (r.getD 1 "")).map .onFace
  | "outside" => (parseNat (r.getD 1 "")).map .outside
  | "notri" => some .noTri
  | _ => none

/-- canonical key of a locate answer: what must not depend on the hint -/
def locKey (s : St) : LocRes → String
  | .onVertex v => s!"v{v}"
  | .onEdge e => s!"e{e / 2}"
  | .onFace f => s!"f{f}"
  | .outside _ => "out"
  | .noTri => "notri"

def validPt (tx ty : String) : Except String (Except InsErr Pt) :=
  match parseCoord tx, parseCoord ty with
  | some x, some y =>
    match x.validSpec with
    | .error e => .ok (.error e)
    | .ok _ => match y.validSpec with
      | .error e => .ok (.error e)
      | .ok _ => match mkPt? x y with
        | some p => .ok (.ok p)
        | none => .error "non-finite valid?"
  | _, _ => .error "bad coordinate token"

/-- the property whose operation did not return (a call that panics or hangs does not "return the
element …"): appended to C07 for panics and timeouts -/
def opProp (name : String) : String :=
  match name with
  | "loc" | "loch" => ",C09"
  | "nn" => ",C15"
  | "hull" => ",C14"
  | "line" | "lineh" => ",C17"
  | "rectv" | "recte" | "circv" | "circe" => ",C16"
  | "vor" => ",C18"
  | "bary" | "nnw" | "baryi" | "nnwi" => ",C19"
  | "refine" => ",C20"
  | "consplit" => ",C13"
  | "con" | "trycon" | "canadd" | "confv" | "confp" | "isect" | "exists" => ",C12"
  | "bulk" => ",C10"
  | "rm" | "trm" | "lrm" => ",C11"
  | "ins" | "insh" => ",C05"
  | _ => ""

def isDocumentedPanic (msg : String) : Bool :=
  (msg.splitOn "Constraint edges must not intersect").length > 1

def natList (r : Array String) (start : Nat) : Option (List Nat) :=
  (r.toList.drop start).mapM parseNat

/-- pieces properly crossed by `p q`, and pieces merely touched by a free end point -/
def mustCross (a : AState) (p q : Pt) : List (Pt × Pt) :=
  a.cons.filter fun c => decide (ProperCross p q c.1 c.2)
def mayTouch (a : AState) (p q : Pt) : List (Pt × Pt) :=
  a.cons.filter fun c => decide (OnOpenSeg c.1 c.2 p) || decide (OnOpenSeg c.1 c.2 q)

def splitBar (r : List String) : List String × List String :=
  (r.takeWhile (· ≠ "|"), (r.dropWhile (· ≠ "|")).drop 1)

structure BulkIn where
  pts : Array (Except InsErr Pt × Nat)
  edges : List (Nat × Nat)

def parseBulk (op : Array String) : Option (String × BulkIn) := do
  let kind := op.getD 1 ""
  let n ← parseNat (op.getD 2 "")
  let mut pts : Array (Except InsErr Pt × Nat) := #[]
  for i in [0:n] do
    let vp ← (validPt (op.getD (3 + 3*i) "") (op.getD (4 + 3*i) "")).toOption
    let d ← parseNat (op.getD (5 + 3*i) "")
    pts := pts.push (vp, d)
  let m ← parseNat (op.getD (3 + 3*n) "")
  let mut edges : List (Nat × Nat) := []
  for k in [0:m] do
    let a ← parseNat (op.getD (4 + 3*n + 2*k) "")
    let b ← parseNat (op.getD (5 + 3*n + 2*k) "")
    edges := edges ++ [(a, b)]
  return (kind, { pts, edges })

def isSubseq : List (Pt × Nat) → List (Pt × Nat) → Bool
  | [], _ => true
  | _ :: _, [] => false
  | x :: xs, y :: ys => if x == y then isSubseq xs ys else isSubseq (x :: xs) ys

/-- judge one operation. `dump`: the state printed after it (mutating operations only). -/
def judge (h : HCtx) (op res : Array String) (dump : Option St) : HCtx × List Fail :=
  let name := op.getD 0 ""
  let r0 := res.getD 0 ""
  let h := { h with step := h.step + 1 }
  if h.tainted then (h, []) else
  -- universal outcomes
  if r0 == "timeout" then
    ({ h with ended := true }, [⟨"C07" ++ opProp name, "timeout", name⟩])
  else if r0 == "skip" || r0 == "unsupported" || r0 == "dead" then (h, [])
  else if r0 == "panic" then
    let msg := " ".intercalate (res.toList.drop 1)
    let documented := isDocumentedPanic msg &&
      (name == "con" || name == "conedge" || name == "conedges" || name == "bulk")
    -- `con` panics are documented only if the addition is really impossible (C12)
    let fails :=
      if documented then
        if name == "con" then
          match parseNat (op.getD 1 ""), parseNat (op.getD 2 "") with
          | some a, some b => chk (!(h.abs.canAdd a b)) "C12,C07" "con-panic-but-addable" (fun _ => msg)
          | _, _ => []
        else []
      else [⟨"C07" ++ opProp name, "panic", s!"{name}: {msg}"⟩]
    ({ h with ended := true }, fails)
  else
  let s := h.cur
  let bad := fun (why : String) => (h, [(⟨"INTERNAL", "protocol", s!"{name}: {why}"⟩ : Fail)])
  -- finishing a mutating step: compare with A, check all specs, adopt the new state
  -- context note for removals (signature feature of finding K3)
  let rmNote : String :=
    if name == "rm" || name == "trm" then
      match parseNat (op.getD 1 "") with
      | some i => if (List.range s.nE).any (fun e => s.org e == i && s.isFlag e) then " removed_has_constraint=1" else " removed_has_constraint=0"
      | none => ""
    else if name == "lrm" then
      match parsePt (op.getD 1 "") (op.getD 2 "") with
      | some p =>
        match h.abs.find p with
        | some i => if (List.range s.nE).any (fun e => s.org e == i && s.isFlag e) then " removed_has_constraint=1" else " removed_has_constraint=0"
        | none => ""
      | none => ""
    else ""
  let finish := fun (h : HCtx) (a' : AState) (pre : List Fail) (opProps : String) =>
    match dump with
    | none => (h, pre ++ [⟨"INTERNAL", "protocol", s!"{name}: missing dump"⟩])
    | some d =>
      -- after reporting a divergence, A is re-synchronised with the implementation so that one
      -- defect is reported once and later steps are judged independently
      let a'' : AState :=
        { verts := if vertsMatch d a' then a'.verts
                   else ((List.range d.nV).map fun i => (d.P i, d.data.getD i 0)).toArray,
          cons := if !d.isCdt || consMatch d a' then a'.cons else flaggedSegs d }
      let sf := (checkState h d opProps).map fun f => { f with detail := f.detail ++ rmNote }
      ({ h with abs := a'', cur := d, lastLoc := none, tainted := !sf.isEmpty },
        pre ++ checkAbs d a' opProps ++ sf)
  match name with
  | "ins" | "insh" =>
    match validPt (op.getD 1 "") (op.getD 2 ""), parseNat (op.getD 3 "") with
    | .ok (.error e), some _ =>
      let f1 := chk (r0 == "err" && res.getD 1 "" == toString e) "C08" "insert-error-kind"
        (fun _ => s!"expected err {e}, got {res.toList}")
      let f2 := match dump with
        | some d => chk (stEq d s) "C08" "failed-insert-changed-state" (fun _ => "")
        | none => []
      finish h h.abs (f1 ++ f2) "C08"
    | .ok (.ok p), some d =>
      let (a', i) := h.abs.insert p d
      let f1 := chk (r0 == "ok" && res.getD 1 "" == toString i) "C05,C08" "insert-result"
        (fun _ => s!"expected ok {i}, got {res.toList}")
      finish h a' f1 ""
    | _, _ => bad "args"
  | "rm" | "trm" =>
    match parseNat (op.getD 1 "") with
    | some i =>
      let (a', d) := h.abs.remove i
      let f1 := chk (r0 == "ok" && res.getD 1 "" == toString d) "C05,C11" "remove-result"
        (fun _ => s!"expected ok {d}, got {res.toList}")
      finish h a' f1 "C11"
    | none => bad "args"
  | "lrm" =>
    match parsePt (op.getD 1 "") (op.getD 2 "") with
    | some p =>
      match h.abs.find p with
      | some i =>
        let (a', d) := h.abs.remove i
        let f1 := chk (r0 == "ok" && res.getD 1 "" == toString d) "C05,C11" "locate-and-remove-result"
          (fun _ => s!"expected ok {d}, got {res.toList}")
        finish h a' f1 "C11"
      | none =>
        let f1 := chk (r0 == "none") "C05,C11" "locate-and-remove-result"
          (fun _ => s!"expected none, got {res.toList}")
        let f2 := match dump with
          | some d => chk (stEq d s) "C11" "noop-remove-changed-state" (fun _ => "")
          | none => []
        finish h h.abs (f1 ++ f2) "C11"
    | none => bad "args"
  | "clear" => finish h AState.empty [] ""
  | "clone" =>
    let f := match dump with
      | some d => chk (stEq d s) "C02" "clone-differs" (fun _ => "")
      | none => []
    finish h h.abs f ""
  | "intocdt" =>
    let f := match dump with
      | some d => chk (d.pos == s.pos && d.data == s.data && d.he == s.he && d.fAdj == s.fAdj && d.vOut == s.vOut)
          "C02" "into-cdt-differs" (fun _ => "")
      | none => []
    finish { h with kind := "cdt" } h.abs f ""
  | "bulk" =>
    match parseBulk op with
    | none => bad "args"
    | some (kind, bi) =>
      let firstErr := bi.pts.toList.findSome? fun v => match v.1 with | .error e => some e | .ok _ => none
      match firstErr with
      | some e =>
        -- the first invalid vertex in input order decides the error (C08)
        let f1 := chk (r0 == "err" && res.getD 1 "" == toString e) "C08,C10" "bulk-error-kind"
          (fun _ => s!"expected err {e}, got {res.toList}")
        finish h h.abs f1 "C08"
      | none =>
        let input : List (Pt × Nat) := bi.pts.toList.filterMap fun v =>
          match v.1 with | .ok p => some (p, v.2) | .error _ => none
        let f0 := chk (r0 == "ok") "C08,C10" "bulk-rejected-valid-input" (fun _ => s!"{res.toList}")
        match dump with
        | none => (h, f0 ++ [⟨"INTERNAL", "protocol", "bulk: missing dump"⟩])
        | some d =>
          let out : List (Pt × Nat) := (List.range d.nV).map fun i => (d.P i, d.data.getD i 0)
          let distinctIn := (input.map (·.1)).eraseDups
          let f1 := chk (out.length == distinctIn.length) "C10" "bulk-vertex-count"
            (fun _ => s!"distinct input {distinctIn.length}, output {out.length}")
          let f2 := chk (out.all (input.contains ·)) "C10" "bulk-vertex-not-from-input" (fun _ => "")
          let f3 := chk (distinctIn.all fun p => out.any (·.1 == p)) "C10" "bulk-position-lost" (fun _ => "")
          let stable := kind == "stable" || kind == "cdtstable"
          let f4 := if stable then chk (isSubseq out input) "C10" "bulk-stable-order" (fun _ => "") else []
          -- constraints: adding the requested segments one by one on the resulting vertex set
          let a0 : AState := { verts := out.toArray, cons := [] }
          let a1 := bi.edges.foldl (fun (a : AState) (e : Nat × Nat) =>
            match input[e.1]?, input[e.2]? with
            | some p, some q =>
              match a.find p.1, a.find q.1 with
              | some i, some j => (a.addConstraint i j).1
              | _, _ => a
            | _, _ => a) a0
          finish h a1 (f0 ++ f1 ++ f2 ++ f3 ++ f4) "C10"
  | "loc" | "loch" =>
    match parsePt (op.getD 1 "") (op.getD 2 ""), parseLoc res with
    | some q, some r =>
      let f1 := chk (decide (s.LocateAnswerOK q r)) "C09" "locate-answer-wrong"
        (fun _ => s!"q={q} answer={res.toList}")
      let key := locKey s r
      let f2 := match h.lastLoc with
        | some (q', k') => if q' == q then chk (k' == key) "C09" "locate-depends-on-hint"
            (fun _ => s!"q={q}: {k'} vs {key}") else []
        | none => []
      ({ h with lastLoc := some (q, key) }, f1 ++ f2)
    | _, _ => bad "args/result"
  | "nn" =>
    match parsePt (op.getD 1 "") (op.getD 2 "") with
    | some q =>
      let r : Option (Option Nat) := if r0 == "none" then some none
        else if r0 == "some" then (parseNat (res.getD 1 "")).map some else none
      match r with
      | some r =>
        -- rounding of the squared distances: binary64 has 53, binary32 24 significant bits
        let slack := if exactFam h.fam then 0 else if h.scalar == "f32" then 16 else 40
        let pbits := if h.scalar == "f32" then 18 else 46
        -- classification of a failure (used by the known-findings signatures): did the walk stop
        -- at a vertex that has a strictly closer neighbour, and is that neighbour closer only
        -- within the rounding of the squared distance (a plateau of rounded distances)?
        let cls := fun (_ : Unit) => match r with
          | none => "none"
          | some v =>
            let dv := dist2 (s.P v) q
            let closer := (List.range s.nE).filter fun e => s.org e == v && dist2 (s.B e) q < dv
            if closer.isEmpty then "localmin"
            else if closer.all (fun e => (dv - dist2 (s.B e) q) * 2 ^ pbits ≤ dv) then "plateau"
            else "early"
        -- R3: two consecutive `nearest_neighbor` calls with the last-used-vertex hint generator:
        -- the second walk starts at the answer of the first; the walk model (first out-neighbour
        -- that is strictly closer, exact on the integer families) must stop at the same vertex
        let fm := match h.lastNN, r with
          | some (st, u), some v =>
            if st + 1 == h.step && h.hint == "last" && exactFam h.fam && u < s.nV then
              chk (s.nnWalkM q (s.nV * s.nV + 4) u == v) "C15:model" "nn-walk-model-differs"
                (fun _ => s!"q={q} start={u} impl={v} model={s.nnWalkM q (s.nV * s.nV + 4) u}")
            else []
          | _, _ => []
        ({ h with lastNN := r.map fun v => (h.step, v) },
          chk (decide (s.NearestOK q slack r)) "C15" "nearest-neighbor-not-minimal"
            (fun _ => s!"class={cls ()} q={q} answer={res.toList}") ++ fm)
      | none => bad "result"
    | none => bad "args"
  | "hull" =>
    match parseNat (res.getD 1 "") with
    | some size =>
      let (fw, bw0) := splitBar (res.toList.drop 2)
      let (bw, mx) := splitBar bw0
      match fw.mapM parseNat, bw.mapM parseNat, mx.mapM parseNat with
      | some fwd, some bwd, some mixed =>
        (h, chk (decide (s.HullAnswerOK size fwd bwd)) "C14" "hull-answer-wrong"
              (fun _ => s!"{res.toList}") ++
            -- consumed from both ends in turn: still every hull edge exactly once
            chk (mixed.length == fwd.length && mixed.eraseDups.length == mixed.length && mixed.all fwd.contains)
              "C14" "hull-mixed-iteration-wrong" (fun _ => s!"fwd={fwd} mixed={mixed}") ++
            chk (mixed == s.hullIterMixed) "C14:model" "hull-mixed-iterator-model-differs"
              (fun _ => s!"model={s.hullIterMixed} impl={mixed}") ++
            -- R3: the iterator model on the dumped links yields the very same sequence
            chk (fwd == s.hullIter) "C14:model" "hull-iterator-model-differs"
              (fun _ => s!"model={s.hullIter} impl={fwd}") ++
            -- the `CircularIterator` state machine translated by T0, drained from either end
            chk (fwd == s.hullIterFront) "C14:model" "hull-circular-iterator-model-differs"
              (fun _ => s!"model={s.hullIterFront} impl={fwd}") ++
            chk (bwd == s.hullIterBack) "C14:model" "hull-back-iterator-model-differs"
              (fun _ => s!"model={s.hullIterBack} impl={bwd}"))
      | _, _, _ => bad "result"
    | none => bad "result"
  | "canadd" | "exists" =>
    match parseNat (op.getD 1 ""), parseNat (op.getD 2 "") with
    | some a, some b =>
      let exp := if name == "canadd" then h.abs.canAdd a b
        else h.abs.cons.contains (normSeg (h.abs.posOf a) (h.abs.posOf b)) && a != b
      (h, chk (r0 == "bool" && res.getD 1 "" == (if exp then "1" else "0")) "C12" s!"{name}-wrong"
        (fun _ => s!"a={a} b={b} expected {exp} got {res.toList}"))
    | _, _ => bad "args"
  | "isect" =>
    match parsePt (op.getD 1 "") (op.getD 2 ""), parsePt (op.getD 3 "") (op.getD 4 "") with
    | some p, some q =>
      let must := !(mustCross h.abs p q).isEmpty
      let may := must || !(mayTouch h.abs p q).isEmpty
      let got := res.getD 1 "" == "1"
      (h, chk ((!must || got) && (!got || may)) "C12" "intersects-constraint-wrong"
        (fun _ => s!"p={p} q={q} must={must} may={may} got={got}"))
    | _, _ => bad "args"
  | "confv" | "confp" =>
    let pq : Option (Pt × Pt) :=
      if name == "confv" then
        match parseNat (op.getD 1 ""), parseNat (op.getD 2 "") with
        | some a, some b => some (h.abs.posOf a, h.abs.posOf b)
        | _, _ => none
      else
        match parsePt (op.getD 1 "") (op.getD 2 ""), parsePt (op.getD 3 "") (op.getD 4 "") with
        | some p, some q => some (p, q)
        | _, _ => none
    match pq, natList res 1 with
    | some (p, q), some es =>
      let segs := es.map fun e => normSeg (s.A e) (s.B e)
      let must := mustCross h.abs p q
      let may := mayTouch h.abs p q
      let ok := es.all (fun e => e < s.nE && s.isFlag e) &&
        must.all (segs.contains ·) && segs.all (fun c => must.contains c || may.contains c) &&
        (es.map (· / 2)).eraseDups.length == es.length
      (h, chk ok "C12" "conflicting-edges-wrong" (fun _ => s!"p={p} q={q} got={es} must={must.length}"))
    | _, _ => bad "args/result"
  | "con" | "trycon" =>
    match parseNat (op.getD 1 ""), parseNat (op.getD 2 "") with
    | some a, some b =>
      let can := h.abs.canAdd a b
      if can then
        let (a', added) := h.abs.addConstraint a b
        if name == "con" then
          let f1 := chk (r0 == "bool" && res.getD 1 "" == (if added then "1" else "0")) "C04,C12"
            "add-constraint-result" (fun _ => s!"expected {added} got {res.toList}")
          finish h a' f1 "C12"
        else
          match natList res 1, dump with
          | some es, some d =>
            let same := h.abs.posOf a == h.abs.posOf b
            let chainOK := if same then es.isEmpty else
              !es.isEmpty && es.all (fun e => e < d.nE && d.isFlag e) &&
              d.org (es.headD 0) == a && d.dst (es.getLastD 0) == b &&
              (List.zip es (es.drop 1)).all fun p => d.dst p.1 == d.org p.2
            let f1 := chk chainOK "C12" "try-add-constraint-chain" (fun _ => s!"a={a} b={b} chain={es}")
            finish h a' f1 "C12"
          | _, _ => bad "result"
      else
        -- not addable: trycon returns nothing and changes nothing; `con` must panic (handled above)
        if name == "con" then
          finish h h.abs [⟨"C12", "add-constraint-did-not-panic-on-crossing", s!"a={a} b={b}"⟩] "C12"
        else
          let f1 := chk (res.size == 1) "C12" "try-add-constraint-nonempty-on-conflict" (fun _ => s!"{res.toList}")
          let f2 := match dump with
            | some d => chk (stEq d s) "C12" "failed-try-add-changed-state" (fun _ => "")
            | none => []
          finish h h.abs (f1 ++ f2) "C12"
    | _, _ => bad "args"
  | "rmcon" =>
    match parseNat (op.getD 1 ""), parseNat (op.getD 2 "") with
    | some a, some b =>
      if r0 == "noedge" then
        -- no edge between the two vertices in the implementation: then no piece either
        let f := chk (!(h.abs.cons.contains (normSeg (h.abs.posOf a) (h.abs.posOf b))) || a == b) "C04"
          "constraint-piece-without-edge" (fun _ => s!"a={a} b={b}")
        (h, f)
      else
        let (a', was) := h.abs.removePiece (h.abs.posOf a) (h.abs.posOf b)
        let f1 := chk (r0 == "bool" && res.getD 1 "" == (if was then "1" else "0")) "C04"
          "remove-constraint-edge-result" (fun _ => s!"expected {was} got {res.toList}")
        finish h a' f1 ""
    | _, _ => bad "args"
  | "conedge" =>
    match validPt (op.getD 1 "") (op.getD 2 ""), parseNat (op.getD 3 ""),
          validPt (op.getD 4 "") (op.getD 5 ""), parseNat (op.getD 6 "") with
    | .ok vp, some d1, .ok vq, some d2 =>
      match vp with
      | .error e =>
        let f1 := chk (r0 == "err" && res.getD 1 "" == toString e) "C08" "add-constraint-edge-error-kind"
          (fun _ => s!"expected err {e}, got {res.toList}")
        finish h h.abs f1 "C08"
      | .ok p =>
        let (a1, i) := h.abs.insert p d1
        match vq with
        | .error e =>
          let f1 := chk (r0 == "err" && res.getD 1 "" == toString e) "C08" "add-constraint-edge-error-kind"
            (fun _ => s!"expected err {e}, got {res.toList}")
          finish h a1 f1 "C08"
        | .ok q =>
          let (a2, j) := a1.insert q d2
          if a2.canAdd i j then
            let (a3, added) := a2.addConstraint i j
            let f1 := chk (r0 == "ok" && res.getD 1 "" == (if added then "1" else "0")) "C04"
              "add-constraint-edge-result" (fun _ => s!"expected ok {added} got {res.toList}")
            finish h a3 f1 ""
          else
            finish h a2 [⟨"C12", "add-constraint-edge-did-not-panic-on-crossing", ""⟩] ""
    | _, _, _, _ => bad "args"
  | "conedges" =>
    match parseNat (op.getD 1 ""), parseNat (op.getD 2 "") with
    | some closed, some n =>
      let vs : List (Except String (Except InsErr Pt) × Option Nat) := (List.range n).map fun i =>
        (validPt (op.getD (3 + 3*i) "") (op.getD (4 + 3*i) ""), parseNat (op.getD (5 + 3*i) ""))
      -- sequential semantics: insert, then constrain to the previous vertex
      let rec go (a : AState) (rest : List (Except String (Except InsErr Pt) × Option Nat))
          (first prev : Option Nat) : AState × Option InsErr × Bool × Option Nat × Option Nat :=
        match rest with
        | [] => (a, none, true, first, prev)
        | (.ok (.ok p), some d) :: tl =>
          let (a1, i) := a.insert p d
          match prev with
          | none => go a1 tl (some i) (some i)
          | some pj =>
            if a1.canAdd pj i then go (a1.addConstraint pj i).1 tl first (some i)
            else (a1, none, false, first, prev)
        | (.ok (.error e), _) :: _ => (a, some e, true, first, prev)
        | _ => (a, none, false, first, prev)
      let (a1, err, okc, first, last) := go h.abs vs none none
      match err with
      | some e =>
        let f1 := chk (r0 == "err" && res.getD 1 "" == toString e) "C08" "add-constraint-edges-error-kind"
          (fun _ => s!"expected err {e}, got {res.toList}")
        finish h a1 f1 "C08"
      | none =>
        if !okc then finish h a1 [⟨"C12", "add-constraint-edges-did-not-panic-on-crossing", ""⟩] ""
        else
          let a2 := match first, last with
            | some f, some l =>
              if closed != 0 && f != l then
                (if a1.canAdd l f then (a1.addConstraint l f).1 else a1) else a1
            | _, _ => a1
          finish h a2 (chk (r0 == "ok") "C04" "add-constraint-edges-result" (fun _ => s!"{res.toList}")) ""
    | _, _ => bad "args"
  | _ => (h, [])   -- operations judged elsewhere (extensions) or not yet covered

end Spade
