#!/bin/bash
# multi-seed robustness sweep: every property, seeds $1..$2
cd "$(dirname "$0")/.."
bin/setup > /dev/null 2>&1
for seed in $(seq $1 $2); do
  for p in C01 C02 C03 C04 C05 C06 C07 C08 C09 C10 C11 C12 C13 C14 C15 C16 C17 C18 C19 C20; do
    out=$(VERIF_SEED=$seed bin/check $p 2>&1)
    if echo "$out" | grep -q "VIOLATION\|INTERNAL"; then echo "seed=$seed $p"; echo "$out" | grep "VIOLATION\|INTERNAL" | cut -c1-300; fi
  done
  echo "seed $seed done"
done
