#!/usr/bin/env python3
"""Turns the last state dump of a protocol file into a Lean `St` literal (integer coordinates
are written unscaled - only for integer-grid inputs). usage: dump2lean.py file name"""
import sys, struct
def dec(t):
    v = struct.unpack('>d', bytes.fromhex(t[1:]))[0] if t[0]=='d' else struct.unpack('>f', bytes.fromhex(t[1:]))[0]
    assert v == int(v); return int(v)
N=V=E=C=F=None
for l in open(sys.argv[1]):
    t=l.split()
    if not t: continue
    if t[0]=='N': N=t[1:]
    if t[0]=='V': V=t[1:]
    if t[0]=='E': E=t[1:]
    if t[0]=='C': C=t[1:]
    if t[0]=='F': F=t[1:]
nv=len(V)//4; ne=len(E)//5
opt=lambda x: "none" if int(x)<0 else f"some {x}"
pos=", ".join(f"⟨{dec(V[4*i])},{dec(V[4*i+1])}⟩" for i in range(nv))
data=", ".join(V[4*i+2] for i in range(nv))
vout=", ".join(opt(V[4*i+3]) for i in range(nv))
he=", ".join(f"⟨{E[5*i]},{E[5*i+1]},{E[5*i+2]},{E[5*i+3]},{E[5*i+4]}⟩" for i in range(ne))
c=C[0] if C else '-'
flag="" if c in '-.' else ", ".join('true' if ch=='1' else 'false' for ch in c)
fadj=", ".join(opt(x) for x in F)
numc="none" if int(N[7])<0 else f"some {N[7]}"
print(f"""def {sys.argv[2]} : St :=
  {{ pos := #[{pos}], data := #[{data}], vOut := #[{vout}],
    he := #[{he}],
    flag := #[{flag}], fAdj := #[{fadj}], isCdt := {'false' if c=='-' else 'true'},
    counts := ⟨{N[0]}, {N[1]}, {N[2]}, {N[3]}, {N[4]}, {N[5]}, {'true' if N[6]=='1' else 'false'}, {numc}⟩ }}""")
