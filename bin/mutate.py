#!/usr/bin/env python3
"""Developer aid (not part of any registered check): mechanical mutation sampling.

usage: mutate.py gen <seed> <count>     -- writes survivors of the repo's own test suite to
                                           /root/scratch/mut/survivors/m<seed>_<k>.diff
       mutate.py run <diff> [props...]  -- runs the quick checks against one survivor (scratch copies
                                           only, like bin/seedtest) and prints which ones alarm

A mutant "survives" when the crate compiles and the unedited 185-test suite passes.  Survivors are
candidates only: many are equivalent (the property still holds); the ones no check reports are
triaged by hand (see DESIGN §13).
"""
import sys, os, re, random, subprocess, shutil, json

MUT = "/root/scratch/mut"
FILES = [
    "src/delaunay_core/triangulation_ext.rs", "src/delaunay_core/dcel_operations.rs",
    "src/delaunay_core/bulk_load.rs", "src/delaunay_core/refinement.rs", "src/delaunay_core/math.rs",
    "src/delaunay_core/line_side_info.rs", "src/delaunay_core/hint_generator.rs",
    "src/delaunay_core/interpolation.rs", "src/cdt.rs", "src/triangulation.rs",
    "src/intersection_iterator.rs", "src/flood_fill_iterator.rs", "src/delaunay_triangulation.rs",
    "src/delaunay_core/handles/handle_impls.rs", "src/delaunay_core/handles/public_handles.rs",
    "src/delaunay_core/handles/iterators/hull_iterator.rs",
    "src/delaunay_core/handles/iterators/circular_iterator.rs",
    "src/delaunay_core/dcel.rs",
]
SWAPS = [
    (r"(?<![<>=!-])<(?![<=])(?=\s)", "<="), (r"<=", "<"), (r"(?<![<>=!-])>(?![>=])(?=\s)", ">="), (r">=", ">"),
    (r"==", "!="), (r"!=", "=="), (r"&&", "||"), (r"\|\|", "&&"),
    (r"is_on_left_side\(\)", "is_on_left_side_or_on_line()"), (r"is_on_left_side_or_on_line\(\)", "is_on_left_side()"),
    (r"is_on_right_side\(\)", "is_on_right_side_or_on_line()"), (r"is_on_right_side_or_on_line\(\)", "is_on_right_side()"),
    (r"\.next\(\)", ".prev()"), (r"\.prev\(\)", ".next()"), (r"\.ccw\(\)", ".cw()"), (r"\.cw\(\)", ".ccw()"),
    (r"\.rev\(\)", ""), (r"\btrue\b", "false"), (r"\bfalse\b", "true"),
    (r"\+ 1\b", "+ 2"), (r"- 1\b", "- 2"), (r"\.from\(\)", ".to()"), (r"\.to\(\)", ".from()"),
    (r"if !", "if "), (r"\.min\(", ".max("), (r"\.max\(", ".min("),
]


def sh(cmd, cwd=None, timeout=900):
    return subprocess.run(cmd, shell=True, cwd=cwd, capture_output=True, text=True, timeout=timeout)


def code_lines(path):
    """indices of lines that are library code: before the first #[cfg(test)], not comments/attributes"""
    out = []
    with open(path) as f:
        lines = f.read().split("\n")
    for i, l in enumerate(lines):
        if l.strip().startswith("#[cfg(test)]"):
            break
        s = l.strip()
        if not s or s.startswith("//") or s.startswith("#[") or s.startswith("use ") or s.startswith("pub use"):
            continue
        if "debug_assert" in s or "assert!" in s or "panic!" in s or "spade_verif" in s:
            continue
        out.append(i)
    return lines, out


def gen(seed, count):
    rng = random.Random(seed)
    wt = f"{MUT}/repo{seed}"
    os.makedirs(f"{MUT}/survivors", exist_ok=True)
    sh("git -C /repo worktree prune")
    if os.path.exists(wt):
        sh(f"git -C /repo worktree remove --force {wt}")
    r = sh(f"git -C /repo worktree add -q --detach {wt} HEAD")
    if r.returncode:
        print(r.stderr); sys.exit(2)
    env = f"CARGO_TARGET_DIR={wt}/target CARGO_NET_OFFLINE=true"
    sh(f"{env} cargo test --offline --lib --no-run", cwd=wt, timeout=1800)
    made = 0
    tries = 0
    while made < count and tries < count * 30:
        tries += 1
        rel = rng.choice(FILES)
        path = os.path.join(wt, rel)
        if not os.path.exists(path):
            continue
        lines, idx = code_lines(path)
        if not idx:
            continue
        i = rng.choice(idx)
        line = lines[i]
        if rng.random() < 0.12 and re.match(r"^\s*(self\.|[a-z_]+\.)[a-z_]+(\.[a-z_]+)*\([^;]*\);\s*$", line) and "let " not in line:
            new = re.sub(r"\S.*$", "// (removed)", line)
            desc = f"removed statement `{line.strip()}`"
        else:
            cands = []
            for pat, rep in SWAPS:
                for m in re.finditer(pat, line):
                    if "//" in line[:m.start()]:
                        continue
                    cands.append((m.start(), m.end(), rep, m.group(0)))
            if not cands:
                continue
            a, b, rep, old = rng.choice(cands)
            new = line[:a] + rep + line[b:]
            desc = f"`{old}` -> `{rep or '(dropped)'}` in `{line.strip()}`"
        lines[i] = new
        with open(path, "w") as f:
            f.write("\n".join(lines))
        try:
            r = sh(f"{env} timeout 600 cargo test --offline --lib 2>&1 | grep -E '^test result|^error' | head -3", cwd=wt)
            ok = "185 passed; 0 failed" in r.stdout
        except subprocess.TimeoutExpired:
            ok = False
        if ok:
            name = f"m{seed}_{made}"
            d = sh("git diff -- src", cwd=wt).stdout
            with open(f"{MUT}/survivors/{name}.diff", "w") as f:
                f.write(d)
            with open(f"{MUT}/survivors/{name}.txt", "w") as f:
                f.write(f"{rel}:{i+1}: {desc}\n")
            print(f"SURVIVOR {name} {rel}:{i+1}: {desc}", flush=True)
            made += 1
        sh("git checkout -- src", cwd=wt)
    sh(f"git -C /repo worktree remove --force {wt}")
    print(f"{made} survivors out of {tries} mutants")


def run(diff, props):
    name = os.path.basename(diff).replace(".diff", "")
    S = f"{MUT}/run-{name}"
    sh(f"rm -rf {S}; mkdir -p {S}; git -C /repo worktree prune")
    r = sh(f"git -C /repo worktree add -q --detach {S}/repo HEAD")
    try:
        if sh(f"git -C {S}/repo apply {diff}").returncode:
            print(f"{name}: patch does not apply"); return
        sh(f"rsync -a --exclude .git --exclude work /verif/ {S}/verif/")
        sh(f"sed -i 's#path = \"/repo\"#path = \"{S}/repo\"#' {S}/verif/harness/Cargo.toml")
        if not props:
            desc = open(diff.replace(".diff", ".txt")).read()
            rel = {"triangulation_ext.rs": "C01 C02 C05 C09 C11 C14 C15 C07", "dcel_operations.rs": "C02 C05 C11 C14 C04",
                   "cdt.rs": "C03 C04 C12 C13 C11", "intersection_iterator.rs": "C17 C12 C04", "refinement.rs": "C20 C07 C02",
                   "public_handles.rs": "C18 C02", "handle_impls.rs": "C18 C19 C02 C17", "interpolation.rs": "C19",
                   "bulk_load.rs": "C10 C01 C14 C04", "math.rs": "C06 C17 C18 C19 C08 C20", "flood_fill_iterator.rs": "C16",
                   "hint_generator.rs": "C09 C15 C05", "triangulation.rs": "C14 C05 C09 C16", "dcel.rs": "C02 C05 C11",
                   "delaunay_triangulation.rs": "C15 C01 C10", "line_side_info.rs": "C06", "hull_iterator.rs": "C14",
                   "circular_iterator.rs": "C02 C18"}
            props = []
            for k, v in rel.items():
                if "/" + k + ":" in desc or desc.startswith("src/" + k + ":"):
                    props = v.split()
            if not props:
                props = ["C%02d" % i for i in range(1, 21)]
        hits = []
        for p in props:
            r = sh(f"VERIF_REPO={S}/repo bin/check {p} --tier quick 2>&1 | grep -E 'VIOLATION|INTERNAL|BUILD' | head -3", cwd=f"{S}/verif", timeout=3000)
            if "VIOLATION" in r.stdout:
                first = r.stdout.strip().split("\n")[0]
                hits.append(p + ":" + first.split("replay=")[-1].split("/")[-1][:60])
        print(f"RESULT {name} detected_by={hits if hits else 'NONE'} :: {open(diff.replace('.diff', '.txt')).read().strip()}", flush=True)
    finally:
        sh(f"git -C /repo worktree remove --force {S}/repo; rm -rf {S}")


if __name__ == "__main__":
    if sys.argv[1] == "gen":
        gen(int(sys.argv[2]), int(sys.argv[3]))
    else:
        run(sys.argv[2], sys.argv[3:])
