#!/usr/bin/env python3
"""usage: store_seed.py Cnn 'change' 'needs'  -- confirms $SEED_WT/Cnn with confirm_seed.sh, stores it as
seeded/Cnn-b (or -c ...), removes the worktree"""
import sys, os, subprocess, json, shutil, glob
WT = os.environ.get("SEED_WT", "/root/scratch/wt3")
ROUND = os.environ.get("SEED_ROUND", "third")
pid, change, needs = sys.argv[1:4]
out = subprocess.run(["/verif/bin/confirm_seed.sh", pid, f"{WT}/{pid}"], capture_output=True, text=True).stdout
res = [l for l in out.splitlines() if l.startswith("test result")]
print("\n".join(res))
ok = len(res) == 3 and "185 passed" in res[0] and "FAILED" in res[1] and "ok." in res[2]
if not ok:
    print("NOT CONFIRMED"); sys.exit(1)
suffix = "b"
while os.path.exists(f"/verif/seeded/{pid}-{suffix}"):
    suffix = chr(ord(suffix) + 1)
d = f"/verif/seeded/{pid}-{suffix}"
os.makedirs(d)
for f in glob.glob(f"{WT}/{pid}/OUT/*"):
    shutil.copy(f, d)
json.dump({"id": f"{pid}-{suffix}", "property": pid, "change": change, "needs_to_manifest": needs,
           "source": "independent sub-agent (" + ROUND + " round: told which sites were already used) given only the property text and a scratch worktree",
           "confirmed": "bin/confirm_seed.sh: existing suite 185 passed with the change; demo fails with it, passes without it",
           "detected_by": []}, open(d + "/meta.json", "w"), indent=1)
subprocess.run(["git", "-C", "/repo", "worktree", "remove", "--force", f"{WT}/{pid}"])
print("stored", d)
