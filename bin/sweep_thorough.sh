#!/bin/bash
# thorough tier of every property for seed $1 (long): prints VIOLATION / INTERNAL lines and timings
cd "$(dirname "$0")/.."
bin/setup > /dev/null 2>&1
seed=${1:-1}
for p in ${2:-C01 C02 C03 C04 C05 C06 C07 C08 C09 C10 C11 C12 C13 C14 C15 C16 C17 C18 C19 C20}; do
  t0=$(date +%s)
  out=$(VERIF_SEED=$seed bin/check $p --tier thorough 2>&1)
  rc=$?
  echo "$p rc=$rc $(( $(date +%s) - t0 ))s $(echo "$out" | grep "thorough:" | cut -c1-160)"
  echo "$out" | grep "VIOLATION\|INTERNAL" | cut -c1-300
done
