#!/bin/bash
# usage: confirm_seed.sh <Cnn> <worktree>  -- confirms a seeded change independently:
# existing suite passes with it; demo fails with it and passes without it.
P=$1; W=$2
cd $W || exit 2
export CARGO_TARGET_DIR=$W/target
echo "== suite with change"; cargo test --offline --lib 2>&1 | grep -E "^test result" | head -2
echo "== demo with change"; cargo test --offline --test demo_$P 2>&1 | grep -E "^test result" | head -2
git diff -- src > $W/.seed.diff; git checkout -- src
echo "== demo without change"; cargo test --offline --test demo_$P 2>&1 | grep -E "^test result" | head -2
git apply $W/.seed.diff; rm -f $W/.seed.diff
git diff --stat -- src | tail -1
