#!/usr/bin/env python3
"""Regenerates the machine-derived sections of DESIGN.md (between <!-- AUTO:x --> markers):
per-property theorem lists (from lean/audit/*.lean), run plans (bin/props.py), seeded changes table
(seeded/*/meta.json)."""
import os, re, json, sys
ROOT = os.path.dirname(os.path.dirname(os.path.abspath(__file__)))
sys.path.insert(0, os.path.join(ROOT, "bin"))
from props import PROPS
def block(name, text, s):
    a, b = f"<!-- AUTO:{name} -->", f"<!-- /AUTO:{name} -->"
    if a not in s:
        return s + f"\n{a}\n{text}\n{b}\n"
    return s[:s.index(a)] + a + "\n" + text + "\n" + s[s.index(b):]
s = open(os.path.join(ROOT, "DESIGN.md")).read()
rows = ["| property | theorems (Lean, audited each run) | run plan: mode (quick / thorough histories) |", "|---|---|---|"]
for p in sorted(PROPS):
    au = os.path.join(ROOT, "lean/audit", p + ".lean")
    th = re.findall(r"#print axioms Spade\.(\S+)", open(au).read()) if os.path.exists(au) else []
    runs = ", ".join(f"{m} ({q}/{t})" for m, q, t in PROPS[p]["runs"])
    rows.append(f"| {p} | {', '.join('`'+t+'`' for t in th)} | {runs} |")
s = block("theorems", "\n".join(rows), s)
rows = ["| id | property | change | needs to manifest | detected by (quick check, seeds tried) |", "|---|---|---|---|---|"]
sd = os.path.join(ROOT, "seeded")
for d in sorted(os.listdir(sd)):
    mp = os.path.join(sd, d, "meta.json")
    if not os.path.exists(mp):
        continue
    m = json.load(open(mp))
    rows.append(f"| {m['id']} | {m['property']} | {m['change']} | {m['needs_to_manifest']} | {'; '.join(m.get('detected_by', [])) or '—'} |")
s = block("seeded", "\n".join(rows), s)
open(os.path.join(ROOT, "DESIGN.md"), "w").write(s)
print("DESIGN.md updated")
