#!/usr/bin/env python3
"""Regenerates the machine-derived sections of DESIGN.md (between <!-- AUTO:x --> markers):
per-property theorem lists (from lean/audit/*.lean), run plans (bin/props.py), seeded changes table
(seeded/*/meta.json)."""
import os, re, json, sys
ROOT = os.path.dirname(os.path.dirname(os.path.abspath(__file__)))
sys.path.insert(0, os.path.join(ROOT, "bin"))
from props import PROPS
def block(name, text, s):
    a, b = f"<!-- AUTO:{name} -->", f"<!-- /AUTO:{name} -->"
    if a not in s:
        return s + f"\n{a}\n{text}\n{b}\n"
    return s[:s.index(a)] + a + "\n" + text + "\n" + s[s.index(b):]
s = open(os.path.join(ROOT, "DESIGN.md")).read()
rows = ["| property | theorems (Lean, audited each run) | run plan: mode (quick / thorough histories) |", "|---|---|---|"]
for p in sorted(PROPS):
    au = os.path.join(ROOT, "lean/audit", p + ".lean")
    th = re.findall(r"#print axioms Spade\.(\S+)", open(au).read()) if os.path.exists(au) else []
    runs = ", ".join(f"{m} ({q}/{t})" for m, q, t in PROPS[p]["runs"])
    rows.append(f"| {p} | {', '.join('`'+t+'`' for t in th)} | {runs} |")
s = block("theorems", "\n".join(rows), s)
rows = ["| id | property | change | needs to manifest | detected by (quick check, seeds tried) |", "|---|---|---|---|---|"]
sd = os.path.join(ROOT, "seeded")
for d in sorted(os.listdir(sd)):
    mp = os.path.join(sd, d, "meta.json")
    if not os.path.exists(mp):
        continue
    m = json.load(open(mp))
    det = '; '.join(m.get('detected_by', [])) or '—'
    if m.get('rechecked_final_day'):
        det += f" — final re-check: {m['rechecked_final_day']}"
    rows.append(f"| {m['id']} | {m['property']} | {m['change']} | {m['needs_to_manifest']} | {det} |")
s = block("seeded", "\n".join(rows), s)
# repaired defects: the `fix:` commits of /repo (oldest first)
import subprocess
log = subprocess.run(["git", "-C", os.environ.get("VERIF_REPO", "/repo"), "log", "--reverse", "--format=%h %s"],
                     capture_output=True, text=True).stdout.splitlines()
fixes = [l for l in log if l.split(" ", 1)[1].startswith("fix:")]
s = block("fixes", "\n".join(f"* `{l.split(' ',1)[0]}` {l.split(' ',1)[1]}" for l in fixes) +
          f"\n\n({len(fixes)} repairs; each is recorded as `kind: fixed` in `known_findings.json` with a replay under `corpus/fixed-*` that every check runs first.)", s)
kf = json.load(open(os.path.join(ROOT, "known_findings.json")))["findings"]
rows = ["| id | properties | what fails | signature (all features must match) |", "|---|---|---|---|"]
for f in kf:
    if f.get("kind") != "finding":
        continue
    m = f.get("match", {})
    sig = "; ".join(f"{k}={v}" for k, v in m.items())
    what = f["what"].replace("|", "/")
    rows.append(f"| {f['id']} | {', '.join(f['properties'])} | {what} | `{sig.replace('|', '/')}` |")
s = block("findings", "\n".join(rows), s)
open(os.path.join(ROOT, "DESIGN.md"), "w").write(s)
print("DESIGN.md updated")
