"""Per-property configuration of bin/check: run plan (mode, quick count, thorough count),
Lean property module, partial theorems, assumptions."""

TRUSTED_BASE = [
    "Lean 4.33 kernel; axioms allowed: propext, Classical.choice, Quot.sound (audited per run with #print axioms)",
    "Lean compiler/runtime for executing the driver (same definitions the theorems are about)",
    "robust::orient2d / robust::incircle (external crate): modelled by the exact determinant sign, validated by the C06 correspondence",
    "Rust harness (state dump through the public API, PRNG, protocol writer) and bin/check (diff, known-findings matching)",
    "translator/t0.py for the leaf decision functions it regenerates",
]

PROPS = {
    "C01": dict(runs=[("dt", 1600, 30000), ("bulk", 12000, 60000)], lean_module="Spade.Properties.C01"),
    "C02": dict(runs=[("dt", 1200, 20000), ("cdt", 1000, 20000), ("small", 1000, 20000), ("bulk", 400, 6000), ("refine", 800, 4000), ("splithull", 800, 8000)], lean_module="Spade.Properties.C02"),
    "C03": dict(runs=[("cdt", 1600, 30000), ("split", 600, 8000), ("refine", 240, 2000)], lean_module="Spade.Properties.C03"),
    "C04": dict(runs=[("cdt", 2000, 40000), ("bulk", 400, 6000), ("conheavy", 200, 6000), ("split", 1000, 10000)], lean_module="Spade.Properties.C04"),
    "C05": dict(runs=[("dt", 1600, 30000), ("cdt", 1000, 15000), ("small", 800, 15000)], lean_module="Spade.Properties.C05"),
    "C06": dict(runs=[("pred", 40000, 2000000), ("locate", 400, 4000), ("quad", 6000, 60000)], lean_module="Spade.Properties.C06"),
    "C07": dict(runs=[("term", 1200, 20000), ("small", 1200, 20000), ("dt", 600, 8000), ("cdt", 600, 8000), ("split", 320, 5000), ("refine", 240, 3000)], lean_module="Spade.Properties.C07"),
    "C08": dict(runs=[("pred", 20000, 1000000), ("invalid", 1200, 20000)], lean_module="Spade.Properties.C08"),
    "C09": dict(runs=[("locate", 2000, 40000), ("cdt", 600, 8000), ("dt", 1200, 20000), ("small", 800, 15000)], lean_module="Spade.Properties.C09"),
    "C10": dict(runs=[("bulk", 12000, 60000)], lean_module="Spade.Properties.C10"),
    "C11": dict(runs=[("dt", 1600, 30000), ("cdt", 2800, 30000), ("small", 1200, 20000)], lean_module="Spade.Properties.C11"),
    "C12": dict(runs=[("cdt", 1600, 30000), ("conq", 1000, 15000), ("conheavy", 200, 20000)], lean_module="Spade.Properties.C12"),
    "C13": dict(runs=[("split", 2000, 40000)], lean_module="Spade.Properties.C13"),
    "C14": dict(runs=[("hull", 1200, 20000), ("small", 1600, 30000), ("dt", 800, 10000), ("bulk", 12000, 60000)], lean_module="Spade.Properties.C14"),
    "C15": dict(runs=[("nn", 2000, 40000)], lean_module="Spade.Properties.C15"),
    "C16": dict(runs=[("shape", 2000, 40000), ("small", 800, 15000)], lean_module="Spade.Properties.C16"),
    "C17": dict(runs=[("line", 2000, 40000), ("small", 800, 15000)], lean_module="Spade.Properties.C17"),
    "C18": dict(runs=[("vor", 1200, 20000), ("small", 1600, 20000), ("dt", 800, 10000)], lean_module="Spade.Properties.C18"),
    "C19": dict(runs=[("interp", 1600, 30000)], lean_module="Spade.Properties.C19"),
    "C20": dict(runs=[("refine", 1200, 20000)], lean_module="Spade.Properties.C20"),
}

# what is *not* proved for each property (decided per run by the verified checkers on the
# implementation's dumped states, or not claimed), written into every evidence file
PARTIAL = {
    "C01": ["that the incremental / removal / bulk algorithms restore the empty-circumcircle property is decided per run (GloballyDelaunay evaluated on every dumped state); no theorem covers Lawson flipping or the circle sweep"],
    "C02": ["LInv / CInv / WInv are proved for every insertion history of the model M under the decidable side condition insertSideOK for hull-extending and chain steps, which the driver evaluates on every compared insertion instead of proving it (needs hull convexity)",
            "removal, constraint insertion, bulk loading, refinement: structural validity (links, ccw faces, tiling, Euler) is decided per run only; Tiles / area identity per run only"],
    "C03": ["that add_constraint / remove / refine leave every free edge locally Delaunay is decided per run; proved on the model: legalisation never flips or unflags a constraint edge"],
    "C04": ["that only the edges of the returned chain are newly flagged is not proved for the constraint-insertion model (the border walk may overwrite its result); add_constraint_and_split and CDT vertex removal are compared with the abstract machine per run only"],
    "C05": ["map semantics are proved on the abstract machine and the vertex arrays of the insertion / removal models; the implementation is compared after every step (R1, R3)"],
    "C06": ["the contract of the external crate `robust` (sign of the exact determinant) is assumed and validated per run on adversarial tuples; float formulas outside the decision functions are not covered"],
    "C07": ["termination and absence of panics of the real code can only be observed (watchdog, catch_unwind on every call); the theorems are termination measures of the modelled loops"],
    "C08": ["unchanged-on-error of the loaders is decided per run (invalid mode)"],
    "C09": ["soundness of every locate answer is proved for the model in every state satisfying WInv (hence after every insertion history of M); for states reached through removal, constraints, bulk loading or refinement the implementation's answers are judged per run; fuel sufficiency of the walk (termination) is not proved"],
    "C10": ["equality of bulk-loaded and incrementally built triangulations is decided per run against the abstract machine and the full state spec; the sweep itself has no model (only the re-ordering tail of bulk_load_stable)"],
    "C11": ["no structural invariant is proved for the removal model (only: the vertex arrays change by one swap_remove); the state after every removal is judged per run; CDT removal with incident constraints is finding K3"],
    "C12": ["exactness of can_add_constraint with respect to proper crossings is decided per run against the abstract machine; proved on the model: refusal iff the Cancel exit, refused calls change nothing"],
    "C13": ["floating point split positions: every clause about add_constraint_and_split is decided per run within a rounding band on well-conditioned families; ill-conditioned regimes are findings K6, K8, K12, K15-K19"],
    "C14": ["convexity of the hull after each operation is decided per run; proved: the hull iterator model yields each outer half-edge once as a closed chain in every consistent state"],
    "C15": ["minimality of the implementation's answers is decided per run (exact on integer families, relative slack elsewhere); proved: the walk model stops at a local minimum"],
    "C16": ["the traversal of the flood-fill iterators (exactly once, connectivity) is decided per run; the circle metric is a float distance judged with a slack; proved: the rectangle metric's edge and vertex tests are exactly 'has a common point' / 'lies in the closed rectangle'"],
    "C17": ["completeness and order of the iteration (every crossed element, once, in line order) are decided per run; proved: step soundness of the model in every state with the link invariant, exactness of the collinear coordinate tests"],
    "C18": ["rounding of the float circumcentre (judged per run with a conditioning-scaled tolerance on well-scaled families); 'the cell encloses exactly the points having this site as nearest neighbour' is not proved"],
    "C19": ["weights are judged per run as exact dyadics (sign, sum, reproduction) on well-conditioned faces; the Sibson area formulas have no model"],
    "C20": ["refinement has no model: every clause (old vertices fixed, budget, coverage of constraints, excluded faces, angle / area bounds under the stated preconditions) is decided per run; proved: the encroachment test, the ratio algebra, optimality of the even-layer certificate"],
}
COMMON_ASSUMPTIONS = [
    "robust::orient2d / robust::incircle return a value whose sign is the sign of the exact determinant for coordinates in the validated range (external crate, not verified; validated per run by the C06 correspondence)",
    "the Rust harness dumps the state faithfully through the public API and the Lean compiler executes the driver according to the definitions the theorems are about",
]
