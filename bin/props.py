"""Per-property configuration of bin/check: run plan (mode, quick count, thorough count),
Lean property module, partial theorems, assumptions."""

TRUSTED_BASE = [
    "Lean 4.33 kernel; axioms allowed: propext, Classical.choice, Quot.sound (audited per run with #print axioms)",
    "Lean compiler/runtime for executing the driver (same definitions the theorems are about)",
    "robust::orient2d / robust::incircle (external crate): modelled by the exact determinant sign, validated by the C06 correspondence",
    "Rust harness (state dump through the public API, PRNG, protocol writer) and bin/check (diff, known-findings matching)",
    "translator/t0.py for the leaf decision functions it regenerates",
]

PROPS = {
    "C01": dict(runs=[("dt", 400, 30000), ("bulk", 4000, 40000)], lean_module="Spade.Properties.C01"),
    "C02": dict(runs=[("dt", 300, 20000), ("cdt", 250, 20000), ("small", 250, 20000), ("bulk", 100, 6000), ("refine", 200, 4000), ("splithull", 200, 8000)], lean_module="Spade.Properties.C02"),
    "C03": dict(runs=[("cdt", 400, 30000), ("split", 150, 8000), ("refine", 60, 2000)], lean_module="Spade.Properties.C03"),
    "C04": dict(runs=[("cdt", 500, 40000), ("bulk", 100, 6000)], lean_module="Spade.Properties.C04"),
    "C05": dict(runs=[("dt", 400, 30000), ("cdt", 250, 15000), ("small", 200, 15000)], lean_module="Spade.Properties.C05"),
    "C06": dict(runs=[("pred", 40000, 2000000), ("locate", 100, 4000), ("quad", 3000, 60000)], lean_module="Spade.Properties.C06"),
    "C07": dict(runs=[("term", 300, 20000), ("small", 300, 20000), ("dt", 150, 8000), ("cdt", 150, 8000), ("split", 80, 5000), ("refine", 60, 3000)], lean_module="Spade.Properties.C07"),
    "C08": dict(runs=[("pred", 20000, 1000000), ("invalid", 300, 20000)], lean_module="Spade.Properties.C08"),
    "C09": dict(runs=[("locate", 500, 40000), ("cdt", 150, 8000), ("dt", 300, 20000), ("small", 200, 15000)], lean_module="Spade.Properties.C09"),
    "C10": dict(runs=[("bulk", 2000, 40000)], lean_module="Spade.Properties.C10"),
    "C11": dict(runs=[("dt", 400, 30000), ("cdt", 700, 30000), ("small", 300, 20000)], lean_module="Spade.Properties.C11"),
    "C12": dict(runs=[("cdt", 400, 30000), ("conq", 250, 15000)], lean_module="Spade.Properties.C12"),
    "C13": dict(runs=[("split", 500, 40000)], lean_module="Spade.Properties.C13"),
    "C14": dict(runs=[("hull", 300, 20000), ("small", 400, 30000), ("dt", 200, 10000), ("bulk", 4000, 20000)], lean_module="Spade.Properties.C14"),
    "C15": dict(runs=[("nn", 500, 40000)], lean_module="Spade.Properties.C15"),
    "C16": dict(runs=[("shape", 500, 40000), ("small", 200, 15000)], lean_module="Spade.Properties.C16"),
    "C17": dict(runs=[("line", 500, 40000), ("small", 200, 15000)], lean_module="Spade.Properties.C17"),
    "C18": dict(runs=[("vor", 300, 20000), ("small", 400, 20000)], lean_module="Spade.Properties.C18"),
    "C19": dict(runs=[("interp", 400, 30000)], lean_module="Spade.Properties.C19"),
    "C20": dict(runs=[("refine", 300, 20000)], lean_module="Spade.Properties.C20"),
}
