"""Per-property configuration of bin/check: run plan (mode, quick count, thorough count),
Lean property module, partial theorems, assumptions."""

TRUSTED_BASE = [
    "Lean 4.33 kernel; axioms allowed: propext, Classical.choice, Quot.sound (audited per run with #print axioms)",
    "Lean compiler/runtime for executing the driver (same definitions the theorems are about)",
    "robust::orient2d / robust::incircle (external crate): modelled by the exact determinant sign, validated by the C06 correspondence",
    "Rust harness (state dump through the public API, PRNG, protocol writer) and bin/check (diff, known-findings matching)",
    "translator/t0.py for the leaf decision functions it regenerates",
]

PROPS = {
    "C01": dict(runs=[("dt", 1600, 30000), ("bulk", 12000, 60000)], lean_module="Spade.Properties.C01"),
    "C02": dict(runs=[("dt", 1200, 20000), ("cdt", 1000, 20000), ("small", 1000, 20000), ("bulk", 400, 6000), ("refine", 800, 4000), ("splithull", 800, 8000)], lean_module="Spade.Properties.C02"),
    "C03": dict(runs=[("cdt", 1600, 30000), ("split", 600, 8000), ("refine", 240, 2000)], lean_module="Spade.Properties.C03"),
    "C04": dict(runs=[("cdt", 2000, 40000), ("bulk", 400, 6000), ("conheavy", 200, 6000), ("split", 1000, 10000)], lean_module="Spade.Properties.C04"),
    "C05": dict(runs=[("dt", 1600, 30000), ("cdt", 1000, 15000), ("small", 800, 15000)], lean_module="Spade.Properties.C05"),
    "C06": dict(runs=[("pred", 40000, 2000000), ("locate", 400, 4000), ("quad", 6000, 60000)], lean_module="Spade.Properties.C06"),
    "C07": dict(runs=[("term", 1200, 20000), ("small", 1200, 20000), ("dt", 600, 8000), ("cdt", 600, 8000), ("split", 320, 5000), ("refine", 240, 3000)], lean_module="Spade.Properties.C07"),
    "C08": dict(runs=[("pred", 20000, 1000000), ("invalid", 1200, 20000)], lean_module="Spade.Properties.C08"),
    "C09": dict(runs=[("locate", 2000, 40000), ("cdt", 600, 8000), ("dt", 1200, 20000), ("small", 800, 15000)], lean_module="Spade.Properties.C09"),
    "C10": dict(runs=[("bulk", 12000, 60000)], lean_module="Spade.Properties.C10"),
    "C11": dict(runs=[("dt", 1600, 30000), ("cdt", 2800, 30000), ("small", 1200, 20000)], lean_module="Spade.Properties.C11"),
    "C12": dict(runs=[("cdt", 1600, 30000), ("conq", 1000, 15000), ("conheavy", 200, 20000)], lean_module="Spade.Properties.C12"),
    "C13": dict(runs=[("split", 2000, 40000)], lean_module="Spade.Properties.C13"),
    "C14": dict(runs=[("hull", 1200, 20000), ("small", 1600, 30000), ("dt", 800, 10000), ("bulk", 12000, 60000)], lean_module="Spade.Properties.C14"),
    "C15": dict(runs=[("nn", 2000, 40000)], lean_module="Spade.Properties.C15"),
    "C16": dict(runs=[("shape", 2000, 40000), ("small", 800, 15000)], lean_module="Spade.Properties.C16"),
    "C17": dict(runs=[("line", 2000, 40000), ("small", 800, 15000)], lean_module="Spade.Properties.C17"),
    "C18": dict(runs=[("vor", 1200, 20000), ("small", 1600, 20000), ("dt", 800, 10000)], lean_module="Spade.Properties.C18"),
    "C19": dict(runs=[("interp", 1600, 30000)], lean_module="Spade.Properties.C19"),
    "C20": dict(runs=[("refine", 1200, 20000)], lean_module="Spade.Properties.C20"),
}
