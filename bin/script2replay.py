#!/usr/bin/env python3
"""Convert a human-readable script into a replay file: tokens written as @<decimal> become
bit-pattern coordinate tokens of the instance's scalar type (f64: d<16 hex>, f32: s<8 hex>).
usage: script2replay.py in.script > out.txt"""
import sys, struct
scalar = "f64"
for line in open(sys.argv[1]):
    line = line.rstrip("\n")
    t = line.split()
    if t and t[0] == "H":
        scalar = t[2]
    out = []
    for tok in t:
        if tok.startswith("@"):
            v = float(tok[1:])
            if scalar == "f64":
                out.append("d%016x" % struct.unpack(">Q", struct.pack(">d", v))[0])
            else:
                out.append("s%08x" % struct.unpack(">I", struct.pack(">f", v))[0])
        else:
            out.append(tok)
    print(" ".join(out) if t else line)
